"""C10 — pack_partitions_to_parquet leaves a complete, clean, re-readable dataset.

The real function on the local filesystem (through a logging fsspec wrapper): final layout (plain part files numbered
contiguously + the two metadata files, nothing else inside, nothing left in the temporary area), the returned frame and an
independent read_parquet_dask hold exactly the input rows, Hilbert ordered; overwrite=True replaces a prior dataset of any
size.  The renumbering ("compaction") of non-empty parts is compared with the Lean model `PackFS.compact`."""
import json
import os
import shutil
import tempfile

import numpy as np
import pandas as pd

from . import common, geo, packfs
from .common import Check, drive, tok, untok

PROP = "C10"


def make_frame(r, n, dup, tail_missing=0):
    from spatialpandas import GeoDataFrame
    if dup:
        base = [[r.randint(0, 20), r.randint(0, 20)] for _ in range(max(1, n // 4))]
        pts = [list(r.choice(base)) for _ in range(n)]
    else:
        pts = [[r.randint(0, 64), r.randint(0, 64)] for _ in range(n)]
    if n > 2 and r.random() < 0.5:
        pts[r.randrange(n)] = None
    for i in range(n - tail_missing, n):
        pts[i] = None                          # a whole trailing input partition without any located geometry
    lines = [[p[0], p[1], p[0] + 1, p[1] + 2] if p else [0, 0, 1, 1] for p in pts]
    return GeoDataFrame({"a": list(range(n)), "geometry": geo.make_array("point", pts, "float64"), "ln": geo.make_array("line", lines, "float64")})


def run_case(chk, r, root, n, in_parts, npart, mode, comp, prior, dup, tag, tail_missing=0, p=6, filtered_read=False):
    import dask
    import dask.dataframe as dd
    from spatialpandas.io import read_parquet_dask
    df = make_frame(r, n, dup, tail_missing)
    work = os.path.join(root, f"case{r.randrange(10**9)}")
    os.makedirs(work)
    path = os.path.join(work, "out.parq")
    fs = packfs.WrapFS()
    rep = dict(api="pack_partitions_to_parquet", n=n, input_partitions=in_parts, npartitions=npart, tempdir=mode, compression=comp,
               prior_dataset=prior, duplicates=dup, all_missing_last_input_partition=bool(tail_missing), p=p, points=geo.to_elements(df["geometry"].array))
    try:
        if prior:
            pn = {"smaller": max(1, npart - 1), "larger": npart + 3}[prior]
            dd.from_pandas(make_frame(r, 3 * pn, False), npartitions=1).pack_partitions_to_parquet(path, filesystem=fs, npartitions=pn, p=6)
        ddf = dd.from_pandas(df, npartitions=in_parts)
        if filtered_read:
            # the frame to pack is a row filter of a frame read from a larger dataset (far-away rows are filtered out): what the read
            # frame knows about its partitions (recorded extents, in use) must not define the curve of the filtered frame
            from spatialpandas import GeoDataFrame
            far = GeoDataFrame({"a": [10 ** 6 + i for i in range(4)], "geometry": geo.make_array("point", [[5000 + i, 7000 - i] for i in range(4)], "float64"),
                                "ln": geo.make_array("line", [[5000, 7000, 5001, 7002]] * 4, "float64")})
            src = work + "_source.parq"                      # next to, not inside, the directory whose contents are inspected
            dd.from_pandas(pd.concat([df, far]), npartitions=in_parts + 1).to_parquet(src)
            rd = read_parquet_dask(src)
            rd.geometry.partition_bounds; rd.cx[0:10, 0:10].compute()
            ddf = rd[rd["a"] < 10 ** 6]
        mark_opens, mark_moves, mark_calls = len(fs.opens), len(fs.moves), len(fs.calls)
        tf = packfs.tempdir_format(mode, work)
        for d in ("scratch_u", "scratch_p", "out.parq.scratch_s"):
            os.makedirs(os.path.join(work, d), exist_ok=True)      # the user's scratch area exists beforehand
        try:
            out = ddf.pack_partitions_to_parquet(path, filesystem=fs, npartitions=npart, p=p, compression=comp, tempdir_format=tf,
                                                 overwrite=bool(prior))
            returned = out.compute()
        except Exception as e:  # noqa: BLE001
            tr = packfs.tree(work)
            empty_parts = "unknown"
            cls = f"{mode}/{'dup' if dup else 'nodup'}"
            chk.violation(f"pack_to_parquet/raises-{common.err_kind(e)}/{cls}", dict(rep, error=repr(e)[:300], tree=[f"{k}:{p}" for k, p in tr][:40]), size=n)
            return
        chk.evaluated(n)
        tr = packfs.tree(work)
        inside = [(k, p[len("out.parq/"):]) for k, p in tr if p.startswith("out.parq/")]
        outside = [(k, p) for k, p in tr if not (p == "out.parq" or p.startswith("out.parq/")) and p not in ("scratch_u", "scratch_p", "out.parq.scratch_s")]
        files = sorted(p for k, p in inside if k == "f")
        dirs = sorted(p for k, p in inside if k == "d")
        partfiles = [p for p in files if p.startswith("part.")]
        m = len(partfiles)
        want_files = sorted([f"part.{i}.parquet" for i in range(m)] + ["_metadata", "_common_metadata"])
        if dirs:
            chk.violation(f"pack_to_parquet/leftover-directory-inside-dataset/{mode}", dict(rep, dirs=dirs[:10], files=files[:20]), size=n); return
        if files != want_files:
            what = "parts-not-contiguous" if sorted(partfiles) != [f"part.{i}.parquet" for i in range(m)] else "unexpected-or-missing-files"
            chk.violation(f"pack_to_parquet/{what}/{mode}", dict(rep, files=files[:30]), size=n); return
        if outside:
            chk.violation(f"pack_to_parquet/leftover-outside-dataset/{mode}", dict(rep, leftovers=[f"{k}:{p}" for k, p in outside][:10]), size=n); return
        # rows
        tb = list(df["geometry"].array.total_bounds)
        h = [int(x) for x in df["geometry"].array.hilbert_distance(total_bounds=tb, p=p)]
        want = sorted(packfs.rows_of(df.set_index(np.asarray(h))))
        indep = read_parquet_dask(path)
        parts = list(dask.compute(*indep.to_delayed(), scheduler="synchronous"))
        for name, got_df in (("returned-frame", returned), ("independent-read", indep.compute())):
            got = packfs.rows_of(got_df)
            if sorted(got) != want:
                what = "rows-lost" if len(got) < len(want) else ("rows-duplicated-or-stale" if len(got) > len(want) else "rows-altered")
                chk.violation(f"pack_to_parquet/{what}/{name}/{'overwrite-' + prior if prior else 'fresh'}", dict(rep, n_in=len(want), n_out=len(got)), size=n); return
            keys = [int(x) for x in got_df.index]
            if keys != sorted(keys):
                chk.violation(f"pack_to_parquet/not-hilbert-ordered/{name}", dict(rep, keys=keys[:30]), size=n); return
        if len(parts) != m or any(len(p_) == 0 for p_ in parts):
            chk.violation("pack_to_parquet/partition-files-and-partitions-disagree", dict(rep, files=m, partitions=len(parts)), size=n); return
        # renumbering against the Lean model `PackFS`: the non-empty output partitions are the part files written (mode 'wb') into the
        # dataset directory by the concatenation step; the moves the implementation made must be exactly the model's, in its order
        def part_no(pth):
            base = os.path.basename(pth)
            return int(base.split(".")[1]) if base.startswith("part.") and base.endswith(".parquet") and os.path.dirname(pth) == path else None
        # (a prior dataset was written through the same filesystem object: only the calls of the last run count)
        non_empty = sorted({part_no(pth) for pth, md in fs.opens[mark_opens:] if "w" in md and part_no(pth) is not None})
        made = [(part_no(a), part_no(b)) for a, b in fs.moves[mark_moves:] if part_no(a) is not None and part_no(b) is not None]
        out_model = untok(drive([f"packfs {tok(non_empty)}"])[0])
        if not isinstance(out_model, list):
            chk.tie_broken(f"correspondence C10 renumbering: model rejects packfs {non_empty}")
        else:
            model_moves = [tuple(mv) for mv in out_model[0]]
            model_final = sorted(e[0] for e in out_model[1])
            if made != model_moves or model_final != list(range(m)):
                # the dataset itself was found right above: the sequence of moves is how the code gets there, not what the property states
                chk.tie_broken(f"correspondence C10 renumbering (Model/PackFS.lean moves vs the move calls of the implementation): mode={mode} "
                               f"non_empty_partitions={non_empty} moves_made={made} model_moves={model_moves} final_parts={m}"); return
            chk.count("renumbering:moves=" + str(min(len(made), 3)) + ("+" if len(made) > 3 else ""))
        # the whole protocol against the Lean model `PackProto.run`: cells (which input partition wrote a sub-part for which output
        # partition) and the order of the concatenation tasks are read off the call log, the model's final tree must be the real one
        def tmp_no(pth):
            d = os.path.dirname(pth)
            if mode == "inside":
                return part_no(d) if d.startswith(path + "/") else None
            b = os.path.basename(d)
            return int(b.split("part")[1].lstrip(".-")) if b.startswith("part") and "scratch" in d else None
        cells = {}
        for pth, md in fs.opens[mark_opens:]:
            b = os.path.basename(pth)
            if "w" in md and b.startswith("part") and b.endswith(".parquet") and not b.startswith("part.") and tmp_no(pth) is not None:
                cells[(tmp_no(pth), int(b[4:-8]))] = 1
        order = []
        for nm, pth in fs.calls[mark_calls:]:
            if nm == "rm":
                i = part_no(pth) if mode == "inside" else (tmp_no(pth + "/x") if "scratch" in pth else None)
                if i is not None and i not in order:
                    order.append(i)
        n_in = ddf.npartitions
        cell_rows = [[cells.get((i, j), 0) for j in range(n_in)] for i in range(npart)]
        pr = 0 if not prior else {"smaller": max(1, npart - 1), "larger": npart + 3}[prior]
        line = f"packproto { {'inside': 0, 'outside-uuid': 1, 'outside-plain': 2, 'outside-sibling': 2, 'outside-uuid-suffix': 1}[mode] } {int(bool(prior))} {npart} {n_in} {tok(cell_rows)} {tok(order)} {pr}"
        pm = untok(drive([line])[0])
        if not isinstance(pm, list) or sorted(order) != list(range(npart)):
            chk.tie_broken(f"correspondence C10 protocol: model rejects / concatenation order not observed: {line[:300]} -> {str(pm)[:100]}")
        else:
            m_place, m_tmp, m_subs, m_files, m_uuid, m_meta, m_cmeta, m_stale = pm
            real = dict(placeholders=sorted(int(d.split(".")[1]) for d in dirs if d.startswith("part.") and d.count("/") == 0), leftovers_outside=len(outside),
                        files=sorted(int(f.split(".")[1]) for f in partfiles), meta="_metadata" in files, cmeta="_common_metadata" in files)
            model = dict(placeholders=sorted(m_place), leftovers_outside=len(m_tmp) + len(m_subs) + int(m_uuid), files=sorted(e[0] for e in m_files),
                         meta=bool(m_meta), cmeta=bool(m_cmeta))
            if real != model or sorted(e[1] for e in m_files) != non_empty:
                chk.violation(f"pack_to_parquet/final-tree-differs-from-model/{mode}", dict(rep, impl=real, model=model, model_line=line[:300]), size=n); return
            chk.count("protocol-model-compared")
        chk.nontriv(hash((tag, n, in_parts, npart, mode, comp, prior, dup)))
        chk.count("mode:" + mode); chk.count("empty-output-partitions:" + ("yes" if m < npart else "no")); chk.count("prior:" + str(prior))
    finally:
        shutil.rmtree(work, ignore_errors=True)
        shutil.rmtree(work + "_source.parq", ignore_errors=True)


def repacked_datasets(chk, r, root, tier):
    """a dataset packed from a frame that was itself packed (its index is named hilbert_distance): after choosing another geometry
    column, another p, or fewer rows, the new dataset is Hilbert-ordered for what was asked this time - in the returned frame and
    in an independent read"""
    import dask.dataframe as dd
    from spatialpandas import GeoDataFrame
    from spatialpandas.io import read_parquet_dask
    n = 48
    for k in range(1 if tier == "quick" else 4):
        pts = [[r.randint(0, 64), r.randint(0, 64)] for _ in range(n)]
        pts2 = [[r.randint(100, 140), r.randint(-30, 30)] for _ in range(n)]
        df = GeoDataFrame({"a": list(range(n)), "g1": geo.make_array("point", pts, "float64"), "g2": geo.make_array("point", pts2, "float64")}).set_geometry("g1")
        work = os.path.join(root, f"repack{k}")
        os.makedirs(work)
        first = os.path.join(work, "first.parq")

        def want(frame, col, p):
            arr = frame[col].array
            return sorted(zip((int(x) for x in arr.hilbert_distance(total_bounds=arr.total_bounds, p=p)), (int(a) for a in frame["a"])))

        def rows(frame):
            res = frame.compute()
            return sorted(zip((int(x) for x in res.index), (int(a) for a in res["a"])))
        try:
            ret = dd.from_pandas(df, npartitions=3).pack_partitions_to_parquet(first, npartitions=3, p=7)
            for name, src, geom, sel, p in (("returned-frame/another-geometry-column", ret, "g2", None, 7), ("read-frame/another-p", read_parquet_dask(first), "g1", None, 4),
                                            ("read-frame/another-geometry-column", read_parquet_dask(first), "g2", None, 6), ("read-frame/fewer-rows", read_parquet_dask(first), "g1", 20, 7)):
                frame = src.set_geometry(geom)
                keep = df
                if sel is not None:
                    frame, keep = frame[frame.a < sel], df[df.a < sel]
                out = os.path.join(work, name.replace("/", "_") + ".parq")
                ret2 = frame.pack_partitions_to_parquet(out, npartitions=2, p=p)
                chk.evaluated(n)
                w = want(keep, geom, p)
                for how, g in (("returned", rows(ret2)), ("read", rows(read_parquet_dask(out, geometry=geom)))):
                    if g != w:
                        what = "rows-differ" if sorted(a for _, a in g) != sorted(a for _, a in w) else "index-is-not-the-hilbert-distance-asked-for"
                        chk.violation(f"pack_to_parquet/repacked/{name}/{what}", dict(api="pack_partitions_to_parquet", scenario=name, frame=how, points=pts[:6],
                                                                                      got=g[:6], expected=w[:6])); break
        except Exception as e:  # noqa: BLE001
            chk.violation(f"pack_to_parquet/repacked/raises-{common.err_kind(e)}", dict(api="pack_partitions_to_parquet", error=repr(e)[:300]))
        shutil.rmtree(work, ignore_errors=True)
    chk.count("repacked-datasets")


def run_cases(chk, tier):
    import dask
    dask.config.set(scheduler="synchronous")
    r = common.rng(PROP)
    root = tempfile.mkdtemp(prefix="spv_c10_")
    try:
        repacked_datasets(chk, common.rng(PROP + "-repack"), root, tier)
        k = 0
        nparts = (1, 2, 3, 6, 13) if tier == "quick" else tuple(range(1, 17))
        for npart in nparts:
            for mode in ("inside", "outside-uuid", "outside-plain"):
                for dup in (False, True):
                    n = r.choice((1, 3, 6, 12)) if not dup else r.choice((6, 12))
                    if npart >= 10 and not dup:
                        n = 4 * npart                      # enough distinct rows for more than ten non-empty parts (part.10 sorts before part.2)
                    in_parts = r.randint(1, min(n, 3))
                    comp = ("snappy", "gzip", None)[k % 3]
                    prior = (None, None, "smaller", "larger")[k % 4]
                    run_case(chk, r, root, n, in_parts, npart, mode, comp, prior, dup, "grid")
                    if k < 4:
                        chk.sample(dict(n=n, input_partitions=in_parts, npartitions=npart, tempdir=mode, compression=comp, prior_dataset=prior,
                                        duplicates=dup), cap=6)
                    k += 1
        # an input partition that holds only missing geometries (its bounds are NaN): the curve must still span the located rows
        # a temporary area next to the dataset whose path string begins with the dataset path; empty output partitions
        for npart in (2, 5) if tier == "quick" else (1, 2, 3, 5, 8, 13):
            for dup in (False, True):
                run_case(chk, r, root, 6 if dup else r.choice((1, 2, 3)), 1, npart, "outside-sibling", "snappy", (None, "larger")[npart % 2], dup, "sibling")
        # packing a row filter of a frame read from parquet (its partition extents are known and in use)
        for npart in (2, 3) if tier == "quick" else (1, 2, 3, 5):
            run_case(chk, r, root, 12, 2, npart, "inside", "snappy", None, False, "filtered-read", filtered_read=True)
        # large curve orders (distances beyond 32 bits): still Hilbert ordered with the right index
        for p_ in (17, 24, 31) if tier == "quick" else (16, 17, 20, 24, 28, 31):
            run_case(chk, r, root, 12, 2, 3, ("inside", "outside-uuid")[p_ % 2], "snappy", None, False, "large-p", p=p_)
        # the {uuid} field as a part of a directory name, further directories below it
        for npart in (2, 4) if tier == "quick" else (1, 2, 3, 4, 7):
            run_case(chk, r, root, 6, 2, npart, "outside-uuid-suffix", None, (None, "smaller")[npart % 2], npart % 2 == 0, "uuid-suffix")
        for mode in ("inside", "outside-uuid"):
            run_case(chk, r, root, 12, 2, 3, mode, "snappy", None, False, "all-missing-input-partition", tail_missing=6)
            run_case(chk, r, root, 9, 3, 4, mode, None, None, False, "all-missing-input-partition", tail_missing=3)
    finally:
        shutil.rmtree(root, ignore_errors=True)


def main(tier):
    chk = Check(PROP, tier)
    proof = common.proof_side(PROP, leanchecker=(tier == "thorough"))
    if common.import_impl(chk):
        try:
            run_cases(chk, tier)
        except Exception:  # noqa: BLE001
            import traceback
            chk.tie_broken("correspondence C10: implementation could not be driven: " + traceback.format_exc()[-1500:])
    chk.extra["rule"] = ("frames of 1..12 rows (distinct or heavily duplicated points so that output partitions come out empty, a missing geometry, two "
                         "geometry columns) x input partitionings x npartitions {1,2,3,6} (1..16 thorough) x tempdir {inside, outside with {uuid}, outside "
                         "plain} x compression x prior dataset {none, smaller, larger with overwrite=True}; the whole directory tree is inspected after "
                         "the call; distinct by the parameter tuple")
    chk.assumptions += ["local filesystem semantics; parquet encoding is pyarrow's"]
    return chk.finish(proof)


def replay(path):
    import sys
    return common.generic_replay(sys.modules[__name__], path)
