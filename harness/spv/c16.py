"""C16 — derived arrays hold the same elements and behave like fresh ones.

Stateful, model-based: a random sequence of derivation steps (integer indexing, slices with any step, boolean
masks, take with/without fill, concatenation, copy, iteration, pickling, Series/DataFrame wrapping and row
selection) is applied to a real array while the expected element list is tracked; after every step the
elements (arrow decode and scalar iteration), the missing mask and every derived quantity of the derived
array are compared with the same selection of the source's.  Request validation (`take`, `arr[i]`) is
compared with the Lean spec `Select.takeSpec` / `getItemSpec`."""
import json
import pickle

import numpy as np
import pandas as pd

from . import common, geo
from .common import Check, drive, tok, untok

PROP = "C16"
BOXES = [(0, 0, 5, 5), (-3, 2, 4, 9), (2, 2, 2, 2)]


def fnum(x):
    x = float(x)
    return "nan" if x != x else x


def quantities(kind, arr):
    """every derived quantity of an array, as comparable python values (one entry per element)"""
    n = len(arr)
    q = {}
    q["isna"] = [bool(x) for x in arr.isna()]
    q["bounds"] = [[fnum(c) for c in row] for row in np.asarray(arr.bounds).reshape(n, 4).tolist()] if n else []
    q["length"] = [fnum(x) for x in np.asarray(arr.length)]
    q["area"] = [fnum(x) for x in np.asarray(arr.area)]
    for b in BOXES:
        q[f"ib{b}"] = [bool(x) for x in arr.intersects_bounds(b)]
    if n:
        q["hilbert"] = [int(x) for x in arr.hilbert_distance(total_bounds=[-64.0, -64.0, 64.0, 64.0], p=5)]
    else:
        q["hilbert"] = []
    if kind == "point":
        sh = geo.make_array("polygon", [[[0, 0, 9, 0, 9, 9, 0, 9, 0, 0]]], "float64")[0]
        q["intersects"] = [bool(x) for x in arr.intersects(sh)]
    return q


def select(q, idx):
    """same selection of a quantity; None in idx = a fill slot (missing element)"""
    out = {}
    for k, v in q.items():
        if k == "isna":
            out[k] = [True if i is None else v[i] for i in idx]
        elif k == "bounds":
            out[k] = [["nan"] * 4 if i is None else v[i] for i in idx]
        elif k in ("length", "area"):
            out[k] = ["nan" if i is None else v[i] for i in idx]
        elif k == "hilbert":
            out[k] = None if any(i is None for i in idx) else [v[i] for i in idx]
        else:
            out[k] = [False if i is None else v[i] for i in idx]
    return out


def canon_el(e):
    if e is None:
        return None
    if isinstance(e, list):
        return [canon_el(x) for x in e]
    return fnum(e)


def nested_empty(kind, el):
    from .c14 import nested_empty as ne
    return ne(kind, el)



DEPTH = {"multipoint": 1, "line": 1, "ring": 1, "multiline": 2, "polygon": 2, "multipolygon": 3}


def raw_view(cur):
    """the raw Arrow view behind a list-backed array: offset, length, whole offsets buffers, validity bits"""
    la = cur.listarray
    bufs = la.buffers()
    depth = (len(bufs) - 2) // 2
    offs = [np.asarray(bufs[1 + 2 * k]).view(np.uint32).tolist() if bufs[1 + 2 * k] is not None else [] for k in range(depth)]
    nvals = 0 if bufs[-1] is None else len(np.asarray(bufs[-1]).view(cur.numpy_dtype))
    top = la.offset + len(la)
    if bufs[0] is None:
        valid = [1] * top
    else:
        bits = np.unpackbits(np.frombuffer(bufs[0], dtype=np.uint8), bitorder="little")
        valid = [int(b) for b in bits[:top]]
    return depth, la.offset, len(la), offs, nvals, valid


def arrow_layer(chk, kind, cur, rep):
    """tie of the Lean model `Arrow` (views of shared buffers) to the real arrays: the model, fed the raw buffers of the derived
    array (values replaced by their positions), must reproduce the elements and every helper the kernels read"""
    if kind == "point":
        buf = cur.data.buffers()[1]
        vals = np.asarray(buf).view(cur.numpy_dtype) if buf is not None else np.array([], dtype=cur.numpy_dtype)
        off, n = cur.data.offset, len(cur)
        line = f"arrowfixed 2 {off} {n} {tok(list(range(len(vals))))}"
        out = untok(drive([line])[0])
        if not isinstance(out, list):
            chk.tie_broken(f"correspondence C16 arrow layer: model rejects {line[:200]}"); return True
        els_pos, flat_pos = out
        back = lambda ps: [fnum(vals[p]) for p in ps]  # noqa: E731
        isna = [bool(x) for x in cur.isna()]
        model = dict(elements=[None if isna[i] else back(e) for i, e in enumerate(els_pos)], flat_values=back(flat_pos))
        impl = dict(elements=canon_el(geo.to_elements(cur)), flat_values=[fnum(x) for x in np.asarray(cur.flat_values)])
    else:
        depth, off, n, offs, nvals, valid = raw_view(cur)
        vals = np.asarray(cur.buffer_values)
        line = f"arrow {depth} {off} {n} {tok(offs)} {tok(list(range(nvals)))} {tok(valid)}"
        out = untok(drive([line])[0])
        if not isinstance(out, list):
            chk.tie_broken(f"correspondence C16 arrow layer: model rejects {line[:200]}"); return True
        els_pos, b0, outer, flat_pos, inner = out

        def back(x):
            if x is None:
                return None
            if isinstance(x, list) and (not x or isinstance(x[0], list)) and not (x == [] and False):
                return [back(y) for y in x] if (x and isinstance(x[0], list)) else []
            return [fnum(vals[p]) for p in x]
        model = dict(elements=[back(e) for e in els_pos], buffer_offsets0=b0, outer=outer, flat_values=[fnum(vals[p]) for p in flat_pos], inner=inner)
        impl = dict(elements=canon_el(geo.to_elements(cur)), buffer_offsets0=[int(x) for x in cur.buffer_offsets[0]],
                    outer=[int(x) for x in cur.buffer_outer_offsets], flat_values=[fnum(x) for x in np.asarray(cur.flat_values)],
                    inner=[int(x) for x in cur.buffer_inner_offsets])
    chk.count("arrow-layer")
    for name in impl:
        if impl[name] != model[name]:
            chk.tie_broken("correspondence C16 arrow layer (Model/Arrow.lean vs _ListArrayBufferMixin / GeometryFixedArray): "
                           + json.dumps(dict(rep, quantity=name, impl=impl[name], model=model[name]), default=str)[:1500])
            return False
    return True

def step(chk, kind, arr, n, r):
    """choose one derivation step; returns (new array | None on expected error, idx list, description)"""
    ops = ["slice", "slice", "stepslice", "mask", "take", "takefill", "concat", "copy", "pickle", "series_iloc", "frame_mask",
           "intlist", "bad", "whole", "whole"]
    op = r.choice(ops)
    if op == "whole":
        # full-length slices: same length as the source, not necessarily the same order
        how = r.choice(("[::-1]", "[:]", "iloc[::-1]", "[n::-1]"))
        if how == "[::-1]":
            return arr[::-1], list(range(n))[::-1], "[::-1]"
        if how == "[:]":
            return arr[:], list(range(n)), "[:]"
        if how == "[n::-1]":
            return arr[n::-1], list(range(n))[n::-1], f"[{n}::-1]"
        from spatialpandas import GeoSeries
        sr = GeoSeries(arr)
        return sr.iloc[::-1].array, list(range(n))[::-1], "GeoSeries.iloc[::-1]"
    if op == "slice":
        a = r.randint(-n - 1, n + 1); b = r.randint(-n - 1, n + 1)
        sl = slice(a, b)
        return arr[sl], list(range(n))[sl], f"[{a}:{b}]"
    if op == "stepslice":
        a = r.choice((None, r.randint(-n - 1, n + 1))); b = r.choice((None, r.randint(-n - 1, n + 1))); s = r.choice((-3, -2, -1, 2, 3))
        sl = slice(a, b, s)
        return arr[sl], list(range(n))[sl], f"[{a}:{b}:{s}]"
    if op == "mask":
        m = np.array([r.random() < 0.5 for _ in range(n)], dtype=bool)
        how = r.choice(("ndarray", "list", "pd"))
        key = m if how == "ndarray" else (m.tolist() if how == "list" else pd.array(m.tolist(), dtype="boolean"))
        return arr[key], [i for i in range(n) if m[i]], f"mask[{how}]"
    if op in ("take", "takefill", "intlist"):
        k = r.randint(0, n + 2)
        fill = op == "takefill"
        idx = [r.randint(-1 if fill else -n, n - 1) for _ in range(k)] if n else []
        if op == "intlist":
            how = r.choice(("list", "ndarray", "pd"))
            key = idx if how == "list" else (np.array(idx, dtype=np.int64) if how == "ndarray" else pd.array(idx, dtype="Int64"))
            res = arr[key] if len(idx) or how != "list" else arr[[]]
            return res, [i % n if n else i for i in idx] if n else [], f"arr[{how}{idx}]"
        # the index as a list or as an integer ndarray of any width that holds its values; the caller's index object is only read
        how = r.choice(("list", "int64", "int32", "int16", "int8"))
        if how == "list" or not idx or max(abs(i) for i in idx) > 120:
            key, how = idx, "list"
        else:
            key = np.array(idx, dtype=how)
        before = list(key)
        res = arr.take(key, allow_fill=fill)
        if [int(x) for x in key] != [int(x) for x in before]:
            chk.violation(f"select/{kind}/take-modifies-the-callers-index", dict(api="take", kind=kind, index=before, after=[int(x) for x in key], index_type=how, allow_fill=fill))
        exp = untok(drive([f"take {n} {int(fill)} {tok(idx)}"])[0])
        return res, (exp if isinstance(exp, list) else []), f"take({idx}, allow_fill={fill})"
    if op == "concat":
        other = arr[:: -1] if n else arr
        return type(arr)._concat_same_type([arr, other, arr[:0]]), list(range(n)) + list(range(n))[::-1], "concat([a, a[::-1], a[:0]])"
    if op == "copy":
        return arr.copy(), list(range(n)), "copy"
    if op == "pickle":
        return pickle.loads(pickle.dumps(arr)), list(range(n)), "pickle"
    if op == "series_iloc":
        from spatialpandas import GeoSeries
        s = GeoSeries(arr, index=[f"k{i}" for i in range(n)])
        idx = [r.randrange(n) for _ in range(r.randint(0, n + 1))] if n else []
        out = s.iloc[idx]
        if list(out.index) != [f"k{i}" for i in idx] or type(out).__name__ != "GeoSeries":
            chk.violation(f"select/{kind}/series-iloc-index-or-type", dict(api="GeoSeries.iloc", kind=kind, idx=idx, got=type(out).__name__))
        return out.array, idx, f"GeoSeries.iloc[{idx}]"
    if op == "frame_mask":
        from spatialpandas import GeoDataFrame
        df = GeoDataFrame({"g": arr, "v": list(range(n))})
        m = [r.random() < 0.6 for _ in range(n)]
        out = df[pd.Series(m, index=df.index)] if n else df
        if list(out["v"]) != [i for i in range(n) if m[i]]:
            chk.violation(f"select/{kind}/frame-mask-other-column", dict(api="GeoDataFrame[mask]", kind=kind))
        return out["g"].array, [i for i in range(n) if m[i]], "GeoDataFrame[mask]"
    return None, None, "bad"


def bad_requests(chk, kind, arr, n, r, els_now):
    """invalid requests raise what pandas expects (compared with the Lean spec)"""
    cases = []
    for _ in range(6):
        fill = r.random() < 0.5
        idx = [r.randint(-n - 2, n + 1) for _ in range(r.randint(1, 3))]
        cases.append(("take", fill, idx))
    for i in (n, -n - 1, n + 3, -1, 0):
        cases.append(("getitem", None, i))
    lines = [f"take {n} {int(c[1])} {tok(c[2])}" if c[0] == "take" else f"getitem {n} {c[2]}" for c in cases]
    outs = drive(lines)
    for c, o in zip(cases, outs):
        if c[0] == "getitem" and o not in ("IndexError", "ValueError"):
            e = els_now[int(o)]
            if e is not None and (nested_empty(kind, e) or not geo.verts_of(kind, e)):
                chk.drifted(f"{kind}: arr[i] cannot represent an element with an empty ring/part (scalar form)", e)
                continue
        try:
            if c[0] == "take":
                res = arr.take(c[2], allow_fill=c[1])
                got = "ok:%d" % len(res)
            else:
                res = arr[c[2]]
                got = "ok"
        except Exception as e:  # noqa: BLE001
            got = common.err_kind(e)
        exp = o if o in ("IndexError", "ValueError") else ("ok:%d" % len(untok(o)) if c[0] == "take" else "ok")
        chk.evaluated()
        if got != exp:
            chk.violation(f"validation/{kind}/{c[0]}/expected-{exp.split(':')[0]}-got-{got.split(':')[0]}",
                          dict(api=c[0], kind=kind, n=n, allow_fill=c[1], request=c[2], impl=got, spec=exp))
        chk.count("validation:" + exp.split(":")[0])
    # boolean mask of the wrong length, NA in indexers
    for key, exp in ((np.ones(n + 1, dtype=bool), "IndexError"), (np.zeros(0, dtype=bool) if n else None, "IndexError"), (np.ones(n - 1, dtype=bool) if n >= 2 else None, "IndexError"),
                     (pd.array([True, None] + [False] * max(0, n - 2), dtype="boolean")[:n] if n >= 2 else None, "ValueError"),
                     (pd.array([0, None], dtype="Int64") if n else None, "ValueError")):
        if key is None:
            continue
        try:
            arr[key]; got = "ok"
        except Exception as e:  # noqa: BLE001
            got = common.err_kind(e)
        if got != exp:
            chk.violation(f"validation/{kind}/getitem-array/expected-{exp}-got-{got}", dict(api="__getitem__", kind=kind, n=n, key=str(key)[:80], impl=got))
        chk.count("validation:" + exp)


def run_sequence(chk, kind, st, els, r, length):
    arr = geo.make_array(kind, els, st)
    try:
        q0 = quantities(kind, arr)
    except Exception as e:  # noqa: BLE001
        chk.violation(f"quantities/{kind}/source-raises-{common.err_kind(e)}", dict(kind=kind, subtype=st, elements=els, error=repr(e)[:200]))
        return
    indexed = bool(len(els)) and r.random() < 0.5
    if indexed:
        arr.build_sindex(page_size=r.choice((1, 2, 512)))
    cur, cur_idx, hist = arr, list(range(len(els))), []
    for _ in range(length):
        n = len(cur)
        try:
            new, idx, desc = step(chk, kind, cur, n, r)
        except Exception as e:  # noqa: BLE001
            chk.violation(f"select/{kind}/valid-request-raises-{common.err_kind(e)}",
                          dict(api="derivation step", kind=kind, subtype=st, elements=els, history=hist, error=repr(e)[:300]))
            return
        if new is None:
            bad_requests(chk, kind, cur, n, r, [None if i is None else els[i] for i in cur_idx])
            continue
        hist.append(desc)
        cur_idx = [None if i is None else cur_idx[i] for i in idx]
        cur = new
        exp_els = [None if i is None else els[i] for i in cur_idx]
        rep = dict(api="derived array", kind=kind, subtype=st, elements=els, history=list(hist))
        chk.evaluated(len(cur_idx))
        if type(cur) is not type(arr) or len(cur) != len(cur_idx):
            chk.violation(f"select/{kind}/wrong-type-or-length/{desc.split('(')[0].split('[')[0]}", dict(rep, got_len=len(cur), exp_len=len(cur_idx)))
            return
        if str(cur.dtype) != str(arr.dtype):
            chk.violation(f"select/{kind}/dtype-changed", dict(rep, got=str(cur.dtype), exp=str(arr.dtype)))
        arrow_layer(chk, kind, cur, rep)
        got_els = canon_el(geo.to_elements(cur))
        if got_els != canon_el(exp_els):
            chk.violation(f"select/{kind}/elements-differ/{desc.split('(')[0].split('[')[0]}", dict(rep, impl=got_els, expected=canon_el(exp_els)))
            return
        # iteration / integer indexing produce equal scalars (elements a scalar can represent)
        for j in r.sample(range(len(cur)), min(len(cur), 4)):
            e = exp_els[j]
            if e is not None and (nested_empty(kind, e) or not geo.verts_of(kind, e)):
                continue
            try:
                sc = cur[j - len(cur)] if r.random() < 0.5 else cur[j]
                val = None if sc is None else canon_el(np.asarray(sc.flat_values).tolist() if kind == "point" else sc.data.as_py())
            except Exception as ex:  # noqa: BLE001
                chk.violation(f"select/{kind}/int-index-raises-{common.err_kind(ex)}", dict(rep, position=j, element=e)); return
            if val != canon_el(e):
                chk.violation(f"select/{kind}/int-index-element-differs", dict(rep, position=j, impl=val, expected=canon_el(e))); return
        try:
            q = quantities(kind, cur)
        except Exception as ex:  # noqa: BLE001
            chk.violation(f"quantities/{kind}/derived-raises-{common.err_kind(ex)}", dict(rep, error=repr(ex)[:200])); return
        want = select(q0, cur_idx)
        for name in q:
            if want[name] is None:
                continue
            if q[name] != want[name]:
                chk.violation(f"quantities/{kind}/{name.split('(')[0]}-depends-on-derivation", dict(rep, quantity=name, derived=q[name], source_selection=want[name]))
                return
        # queries that go through the spatial index (built on the source before the derivation in half of the sequences, so a derived
        # array must not answer from its parent's index): .cx and sindex.intersects against the same selection of the source's answers
        if len(cur):
            for b in BOXES[:2]:
                wm = want[f"ib{b}"]
                try:
                    got_cx = canon_el(geo.to_elements(cur.cx[b[0]:b[2], b[1]:b[3]]))
                    got_si = sorted(int(x) for x in cur.sindex.intersects(b))
                except Exception as ex:  # noqa: BLE001
                    chk.violation(f"quantities/{kind}/cx-raises-{common.err_kind(ex)}", dict(rep, box=list(b), error=repr(ex)[:200])); return
                exp_cx = [canon_el(exp_els[k]) for k in range(len(cur)) if wm[k]]
                if got_cx != exp_cx:
                    chk.violation(f"quantities/{kind}/cx-depends-on-derivation", dict(rep, box=list(b), source_index_built=indexed, derived=got_cx, source_selection=exp_cx)); return
                wb = want["bounds"]
                exp_si = [k for k in range(len(cur)) if "nan" not in wb[k] and not (wb[k][2] < b[0] or wb[k][0] > b[2] or wb[k][3] < b[1] or wb[k][1] > b[3])]
                if got_si != exp_si:
                    chk.violation(f"quantities/{kind}/sindex-depends-on-derivation", dict(rep, box=list(b), source_index_built=indexed, derived=got_si, from_bounds=exp_si)); return
            chk.count("index-queries:" + ("source-indexed" if indexed else "no-source-index"))
            # wrapped in a Series / DataFrame with labels that are a permutation of the positions, index built on the wrapper:
            # `.cx` selects by position (rows k with the box answer True), labels follow the rows
            from spatialpandas import GeoDataFrame, GeoSeries
            labels = list(range(len(cur)))
            r.shuffle(labels)
            b = BOXES[0]
            wm = want[f"ib{b}"]
            exp_lab = [labels[k] for k in range(len(cur)) if wm[k]]
            exp_cx = [canon_el(exp_els[k]) for k in range(len(cur)) if wm[k]]
            for wname in ("GeoSeries", "GeoDataFrame"):
                try:
                    w = GeoSeries(cur, index=labels) if wname == "GeoSeries" else GeoDataFrame({"g": cur, "v": list(range(len(cur)))}, index=labels)
                    for built in (False, True):
                        if built:
                            w.build_sindex()
                        res = w.cx[b[0]:b[2], b[1]:b[3]]
                        garr = res.array if wname == "GeoSeries" else res["g"].array
                        if list(res.index) != exp_lab or canon_el(geo.to_elements(garr)) != exp_cx:
                            chk.violation(f"wrapper/{kind}/{wname}.cx-rows-differ/{'index-built' if built else 'no-index'}",
                                          dict(rep, box=list(b), labels=labels, got_labels=[int(x) for x in res.index], expected_labels=exp_lab)); return
                except Exception as ex:  # noqa: BLE001
                    chk.violation(f"wrapper/{kind}/{wname}.cx-raises-{common.err_kind(ex)}", dict(rep, box=list(b), labels=labels, error=repr(ex)[:200])); return
            chk.count("wrapper-cx")
        # whole-array quantities: total_bounds (= NaN-ignoring fold of the selected rows' bounds of the source) and the
        # default-argument Hilbert distance (which uses it)
        sel = [q0["bounds"][i] for i in cur_idx if i is not None]
        def fold(col, fn):
            vals = [row[col] for row in sel if row[col] != "nan"]
            return fn(vals) if vals else "nan"
        want_tb = [fold(0, min), fold(1, min), fold(2, max), fold(3, max)]
        try:
            tb = [fnum(x) for x in cur.total_bounds]
            tbx = [fnum(x) for x in cur.total_bounds_x]; tby = [fnum(x) for x in cur.total_bounds_y]
        except Exception as ex:  # noqa: BLE001
            chk.violation(f"quantities/{kind}/total_bounds-raises-{common.err_kind(ex)}", dict(rep, error=repr(ex)[:200])); return
        if tb != want_tb or tbx != [want_tb[0], want_tb[2]] or tby != [want_tb[1], want_tb[3]]:
            chk.violation(f"quantities/{kind}/total_bounds-depends-on-derivation", dict(rep, derived=tb, derived_x=tbx, derived_y=tby,
                                                                                      from_selected_rows=want_tb)); return
        if len(cur) and "nan" not in want_tb:
            hd = [int(x) for x in cur.hilbert_distance(p=6)]
            hx = [int(x) for x in cur.hilbert_distance(total_bounds=[float(v) for v in want_tb], p=6)]
            if hd != hx:
                chk.violation(f"quantities/{kind}/default-hilbert_distance-depends-on-derivation", dict(rep, default=hd, explicit=hx)); return
        chk.nontriv(hash((kind, st, json.dumps(canon_el(els)), tuple(hist))))
        chk.count("step:" + desc.split("(")[0].split("[")[0])
    chk.sample(dict(kind=kind, subtype=st, elements=els[:3], history=hist), cap=8)


def narrow_index_dtypes(chk, r):
    """valid positions given as an integer ndarray of a narrow type on an array longer than that type can count"""
    for kind in ("point", "line"):
        n = 200
        els = [[i, -i] if kind == "point" else [i, 0, i + 1, 1] for i in range(n)]
        arr = geo.make_array(kind, els, "float64")
        for dt, idx in (("int8", [-1, -128, 100, 0]), ("uint8", [199, 0, 128]), ("int16", [-200, 199, -1]), ("int64", [-1, -200])):
            key = np.array(idx, dtype=dt)
            want = [canon_el(els[i]) for i in idx]
            for how, f in (("take", lambda: arr.take(key)), ("getitem", lambda: arr[key])):
                try:
                    got = canon_el(geo.to_elements(f()))
                except Exception as e:  # noqa: BLE001
                    chk.violation(f"select/{kind}/valid-{dt}-index-raises-{common.err_kind(e)}", dict(api=how, kind=kind, length=n, index=idx, index_dtype=dt, error=repr(e)[:200])); continue
                if got != want:
                    chk.violation(f"select/{kind}/{dt}-index-elements-differ", dict(api=how, kind=kind, length=n, index=idx, index_dtype=dt, got=got, expected=want))
                if [int(x) for x in key] != idx:
                    chk.violation(f"select/{kind}/take-modifies-the-callers-index", dict(api=how, kind=kind, index=idx, after=[int(x) for x in key], index_type=dt, allow_fill=False))
                chk.evaluated()
    chk.count("narrow-index-dtypes")


def dask_slices_of_one_parent(chk, r):
    """equal-length contiguous slices of one array (they share its buffers and differ in the offset only), each wrapped in a Series with
    the same labels and handed to Dask in one graph: each collection holds its own elements"""
    import dask
    import dask.dataframe as dd
    from spatialpandas import GeoSeries
    dask.config.set(scheduler="synchronous")
    for kind in ("point", "line", "polygon", "multipoint"):
        els = [e for e in geo.structured_elements(kind, r, 30, mag=30) if e is not None and geo.verts_of(kind, e)][:8]
        if len(els) < 8:
            continue
        src = geo.make_array(kind, els, "float64")
        try:
            parts = [src[0:4], src[4:8], src[2:6]]
            cols = [dd.from_pandas(GeoSeries(a), npartitions=1) for a in parts]
            got = dask.compute(*cols)
            bnds = dask.compute(*[c.bounds for c in cols])
            cat = dd.concat(cols[:2]).compute()
            for j, (lo, hi) in enumerate(((0, 4), (4, 8), (2, 6))):
                chk.evaluated()
                want = canon_el(els[lo:hi])
                if canon_el(geo.to_elements(got[j].array)) != want or \
                        [[fnum(x) for x in row] for row in np.asarray(bnds[j]).tolist()] != [[fnum(x) for x in row] for row in np.asarray(src.bounds)[lo:hi].tolist()]:
                    chk.violation(f"quantities/{kind}/dask-collections-of-equal-length-slices-confused", dict(api="dd.from_pandas(GeoSeries(arr[i:j]))", kind=kind, elements=els,
                                                                                                             slice=[lo, hi], got=canon_el(geo.to_elements(got[j].array)), expected=want)); break
            if canon_el(geo.to_elements(cat.array)) != canon_el(els[0:8]):
                chk.violation(f"quantities/{kind}/dask-collections-of-equal-length-slices-confused", dict(api="dd.concat of two slices", kind=kind, elements=els,
                                                                                                         got=canon_el(geo.to_elements(cat.array)), expected=canon_el(els[0:8])))
        except Exception as e:  # noqa: BLE001
            chk.violation(f"quantities/{kind}/dask-slices-raise-{common.err_kind(e)}", dict(api="dd.from_pandas(GeoSeries(arr[i:j]))", kind=kind, error=repr(e)[:300]))
    chk.count("dask-slices-of-one-parent")


def long_arrays_aligned_windows(chk, r, tier):
    """arrays long enough for their validity bitmap to span several bytes: contiguous windows whose (accumulated) offset is a multiple
    of eight, slices of slices, a pickled window - the missing mask and every quantity are those of the same rows of the parent"""
    import pickle
    for kind in geo.KINDS:
        els = []
        while len(els) < 44:
            els += [e for e in geo.structured_elements(kind, r, 12, mag=30) if e is None or geo.verts_of(kind, e)]
        els = els[:44]
        for i in (3, 9, 17, 18, 30, 41):
            els[i] = None
        src = geo.make_array(kind, els, "float64")
        qs = quantities(kind, src)
        wins = [((8, 16),), ((16, 44),), ((24, 33),), ((10, 40), (6, 20)), ((8, 40), (8, 24)), ((1, 44), (7, 30)), ((32, 44),)]
        for w in wins if tier != "quick" else wins[:5]:
            cur, idx = src, list(range(44))
            for lo, hi in w:
                cur, idx = cur[lo:hi], idx[lo:hi]
            for how, a in (("slice", cur), ("pickled-slice", pickle.loads(pickle.dumps(cur)))):
                chk.evaluated(len(idx))
                try:
                    got = quantities(kind, a)
                except Exception as e:  # noqa: BLE001
                    chk.violation(f"quantities/{kind}/aligned-window-raises-{common.err_kind(e)}", dict(api=how, kind=kind, windows=w, error=repr(e)[:200])); break
                want = select(qs, idx)
                bad = [k for k in want if want[k] is not None and got[k] != want[k]]
                if bad or canon_el(geo.to_elements(a)) != canon_el([els[i] for i in idx]):
                    chk.violation(f"quantities/{kind}/window-of-a-long-array-differs/{(bad or ['elements'])[0]}",
                                  dict(api=how, kind=kind, windows=w, elements=els, differs=bad, got={k: got[k] for k in bad[:2]},
                                       expected={k: want[k] for k in bad[:2]})); break
    chk.count("long-arrays-aligned-windows")


def run_cases(chk, tier):
    r = common.rng(PROP)
    long_arrays_aligned_windows(chk, r, tier)
    narrow_index_dtypes(chk, r)
    dask_slices_of_one_parent(chk, r)
    seqs = 14 if tier == "quick" else 150
    for kind in geo.KINDS:
        for k in range(seqs):
            st = ("float64", "float32", "int32")[k % 3] if tier == "quick" else geo.SUBTYPES[k % 5]
            els = geo.structured_elements(kind, r, r.randint(0, 8), mag=30)
            if not st.startswith("float"):
                els = [e for e in els if e is None or all(isinstance(c, int) for v in geo.verts_of(kind, e) for c in v)]
                if kind == "point":
                    els = [e for e in els if e is None or e[0] == e[0]]
            run_sequence(chk, kind, st, els, r, 4 if tier == "quick" else 9)


def main(tier):
    chk = Check(PROP, tier)
    proof = common.proof_side(PROP, leanchecker=(tier == "thorough"))
    if common.import_impl(chk):
        try:
            run_cases(chk, tier)
        except Exception:  # noqa: BLE001
            import traceback
            chk.tie_broken("correspondence C16: implementation could not be driven: " + traceback.format_exc()[-1500:])
    chk.extra["rule"] = ("random derivation sequences (length 4 quick / 9 thorough) over seeded structured arrays of all seven kinds; after every "
                         "step elements, missing mask, bounds, length, area, box tests, Hilbert distance (and point-in-polygon for point arrays) "
                         "are compared with the same selection of the source's; non-trivial = every derived array; distinct by (kind, subtype, "
                         "elements, history)")
    return chk.finish(proof)


def replay(path):
    import sys
    return common.generic_replay(sys.modules[__name__], path)
