"""C08 — a geometry's Hilbert distance is the curve position of its bbox centre.

hilbert_distance(total_bounds, p) for every kind against the Lean reference `HilbertDist.hilbertDistance`
(equality where the scaling arithmetic is exact: extent a power of two), and the clauses that hold for arbitrary
floats checked directly: range, dependence on the element only, argument of any sequence type left unmodified,
degenerate extents widened."""
import json

import numpy as np
import pandas as pd

from . import common, geo
from .common import Check, drive, tok, untok

PROP = "C08"


def model(p, total, rows):
    out = drive(["hdist %d %s %s" % (p, tok(total), tok(rows))])[0]
    if out == "bad-op":
        raise RuntimeError("driver rejected hdist")
    return untok(out)


def bounds_rows(kind, els):
    rows = []
    for e in els:
        vs = geo.verts_of(kind, e)
        if not vs:
            rows.append(None)
        else:
            xs = [int(v[0]) for v in vs]; ys = [int(v[1]) for v in vs]
            rows.append([min(xs), min(ys), max(xs), max(ys)])
    return rows


def exact_case(chk, r, kind, els, total, p, as_type, tag):
    """power-of-two extents: equality with the reference cell"""
    arr = geo.make_array(kind, els, "float64")
    rows = bounds_rows(kind, els)
    rep = dict(api=f"{kind.title()}Array.hilbert_distance", kind=kind, elements=els, total_bounds=list(total) if total else None, p=p,
               argument_type=as_type)
    n = len(els)
    if total is None:
        arg = None
    else:
        vals = [float(v) for v in total]
        ints = [int(v) for v in total]
        arg = {"list": list(vals), "tuple": tuple(vals), "ndarray": np.array(vals), "series": pd.Series(vals),
               "int-tuple": tuple(ints), "int-list": list(ints), "mixed-tuple": (ints[0], ints[1], vals[2], vals[3]),
               "mixed-list": [vals[0], ints[1], np.float32(vals[2]) if float(np.float32(vals[2])) == vals[2] else vals[2], ints[3]],
               "int-ndarray": np.array(ints)}[as_type]
    before = None if arg is None else [float(v) for v in arg]
    deg = total is not None and (total[0] == total[2] or total[1] == total[3])
    try:
        hd = arr.hilbert_distance(total_bounds=arg, p=p)
    except Exception as e:  # noqa: BLE001
        chk.violation(f"hilbert_distance/raises-{common.err_kind(e)}/{as_type}/{'degenerate-extent' if deg else 'regular-extent'}",
                      dict(rep, error=repr(e)[:200]), size=n)
        return
    chk.evaluated(n)
    if arg is not None and [float(v) for v in arg] != before:
        chk.violation(f"hilbert_distance/argument-modified/{as_type}", dict(rep, after=[float(v) for v in arg]), size=n)
    hd = [int(x) for x in hd]
    if len(hd) != n or any(h < 0 or h >= 4 ** p for h in hd):
        chk.violation("hilbert_distance/out-of-range", dict(rep, impl=hd), size=n)
        return
    # the same coordinates stored in single precision (all of them exact there): the centre of a box is the centre of the numbers,
    # whatever the storage type - `lo + hi` must not be rounded to the storage precision
    if all(abs(c) < 2 ** 24 for e in els if e is not None for v in geo.verts_of(kind, e) for c in v):
        try:
            hd32 = [int(x) for x in geo.make_array(kind, els, "float32").hilbert_distance(total_bounds=None if arg is None else [float(v) for v in total], p=p)]
        except Exception as e:  # noqa: BLE001
            chk.violation(f"hilbert_distance/raises-{common.err_kind(e)}/float32-storage", dict(rep, error=repr(e)[:200]), size=n); return
        if hd32 != hd:
            chk.violation("hilbert_distance/depends-on-coordinate-subtype/float32-centre", dict(rep, float32=hd32, float64=hd), size=n); return
        chk.count("float32-storage")
    eff_total = total
    if total is None:
        fin = [row for row in rows if row is not None]
        if not fin:
            return
        eff_total = [min(x[0] for x in fin), min(x[1] for x in fin), max(x[2] for x in fin), max(x[3] for x in fin)]
    m = model(p, eff_total, rows)
    for i in range(n):
        if rows[i] is None:
            continue          # inert element: only the range is claimed
        cls = "degenerate-extent" if (eff_total[0] == eff_total[2] or eff_total[1] == eff_total[3]) else \
              ("centre-outside" if not (eff_total[0] <= (rows[i][0] + rows[i][2]) / 2 <= eff_total[2] and
                                        eff_total[1] <= (rows[i][1] + rows[i][3]) / 2 <= eff_total[3]) else
               ("centre-on-upper-edge" if (rows[i][0] + rows[i][2]) / 2 == eff_total[2] or (rows[i][1] + rows[i][3]) / 2 == eff_total[3] else "inside"))
        if hd[i] != m[i][2]:
            chk.violation(f"hilbert_distance/wrong-cell/{cls}/{'default-bounds' if total is None else 'explicit-bounds'}",
                          dict(rep, row=i, element=els[i], bbox=rows[i], impl=hd[i], model_cell=m[i][:2], model=m[i][2]), size=n)
            break
        chk.nontriv(hash((tag, kind, json.dumps(els[i]), tuple(eff_total), p)))
        chk.count("class:" + cls)
    chk.count("type:" + ("default" if total is None else as_type)); chk.count(f"kind:{kind}")


def invariance_case(chk, r, kind, els, total, p):
    """arbitrary (also inexact) extents: range, dependence on the element only"""
    arr = geo.make_array(kind, els, "float64")
    n = len(els)
    rep = dict(api="hilbert_distance invariance", kind=kind, elements=els, total_bounds=list(total), p=p)
    hd = [int(x) for x in arr.hilbert_distance(total_bounds=list(total), p=p)]
    chk.evaluated(n)
    if any(h < 0 or h >= 4 ** p for h in hd):
        chk.violation("hilbert_distance/out-of-range", dict(rep, impl=hd), size=n); return
    # same elements in a different order / different company / sliced
    perm = r.sample(range(n), n)
    hd2 = [int(x) for x in geo.make_array(kind, [els[i] for i in perm], "float64").hilbert_distance(total_bounds=list(total), p=p)]
    if hd2 != [hd[i] for i in perm]:
        chk.violation("hilbert_distance/depends-on-position", dict(rep, perm=perm, impl=hd, permuted=hd2), size=n); return
    for i in range(n):
        if els[i] is None:
            continue
        solo = int(geo.make_array(kind, [els[i]], "float64").hilbert_distance(total_bounds=list(total), p=p)[0])
        if solo != hd[i] and geo.verts_of(kind, els[i]):
            chk.violation("hilbert_distance/depends-on-other-elements", dict(rep, row=i, alone=solo, in_array=hd[i]), size=n); return
    if n >= 2:
        sl = [int(x) for x in arr[1:].hilbert_distance(total_bounds=list(total), p=p)]
        if sl != hd[1:]:
            chk.violation("hilbert_distance/depends-on-slicing", dict(rep, sliced=sl, whole=hd), size=n); return
    # default extent = the array's own: a window of an array (head, tail, middle - it shares the parent's buffers) behaves like
    # a fresh array of the same elements
    if n >= 3:
        for lo, hi in ((0, n - 1), (0, 1), (1, n), (1, n - 1)):
            wels = els[lo:hi]
            if not any(e is not None and geo.verts_of(kind, e) for e in wels):
                continue
            try:
                fresh = geo.make_array(kind, wels, "float64")
                a, b = [int(x) for x in arr[lo:hi].hilbert_distance(p=p)], [int(x) for x in fresh.hilbert_distance(p=p)]
                ta, tb = [float(x) for x in arr[lo:hi].total_bounds], [float(x) for x in fresh.total_bounds]
            except Exception as e:  # noqa: BLE001
                chk.violation(f"hilbert_distance/window-default-bounds-raises-{common.err_kind(e)}", dict(rep, window=[lo, hi], error=repr(e)[:200]), size=n); return
            if a != b or str(ta) != str(tb):
                chk.violation(f"hilbert_distance/default-bounds-of-a-window-differ-from-a-fresh-array/{'head' if lo == 0 else 'tail' if hi == n else 'middle'}",
                              dict(rep, window=[lo, hi], impl=a, fresh=b, own_total_bounds=ta, fresh_total_bounds=tb), size=n); return
        chk.count("window-default-bounds")
    from spatialpandas import GeoSeries
    gs = GeoSeries(arr, index=[f"k{i}" for i in range(n)]).hilbert_distance(total_bounds=list(total), p=p)
    if [int(x) for x in gs.values] != hd or list(gs.index) != [f"k{i}" for i in range(n)]:
        chk.violation("hilbert_distance/series-form-differs", dict(rep, series=[int(x) for x in gs.values], array=hd), size=n); return
    # the same coordinates stored with another coordinate subtype: the curve cell depends on the bounding box and the extent only
    if all(float(c) == int(c) and abs(c) < 2 ** 24 for e in els if e is not None for v in geo.verts_of(kind, e) for c in v):
        for sub in ("int64", "int32", "float32"):
            try:
                arr_s = geo.make_array(kind, els, sub)
                hd_s = [int(x) for x in arr_s.hilbert_distance(total_bounds=list(total), p=p)]
                gs_s = [int(x) for x in GeoSeries(arr_s).hilbert_distance(total_bounds=list(total), p=p).values]
            except Exception as e:  # noqa: BLE001
                chk.violation(f"hilbert_distance/raises-{common.err_kind(e)}/subtype-{sub}", dict(rep, error=repr(e)[:200]), size=n); return
            if hd_s != hd:
                chk.violation(f"hilbert_distance/depends-on-coordinate-subtype/array/{sub}", dict(rep, subtype=sub, impl=hd_s, float64=hd), size=n); return
            if gs_s != hd:
                chk.violation(f"hilbert_distance/depends-on-coordinate-subtype/series/{sub}", dict(rep, subtype=sub, series=gs_s, float64=hd), size=n); return
            chk.count("subtype:" + sub)
    chk.count("invariance-cases")


def run_cases(chk, tier):
    r = common.rng(PROP)
    from .c01 import random_family
    n_exact = 160 if tier == "quick" else 2000
    for k in range(n_exact):
        kind = geo.KINDS[k % 7]
        p = r.choice((1, 2, 3, 5, 10, 15, 20, 31)) if k % 3 else r.randint(1, 31)
        ex, ey = r.choice((1, 2, 4, 16, 1024)), r.choice((1, 2, 8, 64, 4096))
        # offsets far from the origin relative to the extent (a relative-tolerance comparison of the ends would call them equal)
        lo = (r.choice((0, -8, 1000, -3, 2 ** 22, -2 ** 25, 2 ** 23)), r.choice((0, 16, -1024, 5, 2 ** 24, -2 ** 21, 2 ** 23 - 7)))
        total = [lo[0], lo[1], lo[0] + ex, lo[1] + ey]
        mode = k % 8
        if mode == 5:
            total[2] = total[0]                                   # degenerate in x
        elif mode == 6:
            total[3] = total[1]                                   # degenerate in y
        elif mode == 7:
            total[2] = total[0]; total[3] = total[1]              # degenerate in both
        # elements inside, on the upper edge and outside the extent
        span = max(ex, ey)
        els = []
        for _ in range(r.randint(1, 6)):
            cx = r.choice((total[0], total[2], r.randint(total[0] - 2, total[2] + 2), r.randint(total[0], max(total[0], total[2]))))
            cy = r.choice((total[1], total[3], r.randint(total[1] - 2, total[3] + 2), r.randint(total[1], max(total[1], total[3]))))
            els.append(_element(r, kind, cx, cy, min(span, 4)))
        if r.random() < 0.3:
            els.insert(r.randrange(len(els) + 1), None)
        as_type = ("list", "tuple", "ndarray", "series", "int-tuple", "mixed-tuple", "int-list", "mixed-list", "int-ndarray")[k % 9]
        # a centre far outside the extent, on either side (clamped to the border cell; the scaled value does not fit 64-bit integers)
        if k % 4 == 1:
            els.append(_element(r, kind, r.choice((2 ** 70, -(2 ** 70), total[0] + 3)), r.choice((2 ** 80, -(2 ** 66), total[1])), 0))
        exact_case(chk, r, kind, els, total, p, as_type, "explicit")
        if k % 5 == 0:
            # default total bounds: equality only if the data's own extent is a power of two (or degenerate)
            fin = [b for b in bounds_rows(kind, els) if b]
            if fin:
                w = max(b[2] for b in fin) - min(b[0] for b in fin); h = max(b[3] for b in fin) - min(b[1] for b in fin)
                if all(v == 0 or (v & (v - 1)) == 0 for v in (w, h)):
                    exact_case(chk, r, kind, els, None, p, "default", "default")
        if k < 3:
            chk.sample(dict(kind=kind, p=p, total_bounds=total, elements=els, argument_type=as_type), cap=6)
    for k in range(30 if tier == "quick" else 300):
        kind = geo.KINDS[k % 7]
        els = random_family(kind, r, r.randint(2, 6), r.choice((40, 1000, 30000))) + [None]
        total = [r.uniform(-5e4, 0), r.uniform(-5e4, 0), r.uniform(1, 5e4), r.uniform(1, 5e4)]
        invariance_case(chk, r, kind, els, total, r.randint(1, 31))


def _element(r, kind, cx, cy, s):
    """an element of `kind` whose bounding-box centre is (cx, cy) (integer half-extents)"""
    hx, hy = r.randint(0, s), r.randint(0, s)
    x0, x1, y0, y1 = cx - hx, cx + hx, cy - hy, cy + hy
    if s and r.random() < 0.4:
        # odd width / height: the centre is a half-integer (lo + hi is odd)
        x1 += r.choice((0, 1)); y1 += r.choice((0, 1))
    if kind == "point":
        return [cx, cy]
    if kind in ("multipoint", "line"):
        return [x0, y0, x1, y1]
    if kind == "ring":
        return [x0, y0, x1, y0, x1, y1, x0, y0]
    if kind == "multiline":
        return [[x0, y0, x1, y0], [x1, y1]]
    if kind == "polygon":
        return [[x0, y0, x1, y0, x1, y1, x0, y1, x0, y0]]
    return [[[x0, y0, x1, y0, x1, y1, x0, y1, x0, y0]]]


def main(tier):
    chk = Check(PROP, tier)
    proof = common.proof_side(PROP, leanchecker=(tier == "thorough"))
    if common.import_impl(chk):
        try:
            run_cases(chk, tier)
        except Exception:  # noqa: BLE001
            import traceback
            chk.tie_broken("correspondence C08: implementation could not be driven: " + traceback.format_exc()[-1500:])
    chk.extra["rule"] = ("all kinds x p in 1..31 x total_bounds with power-of-two extents (containing / not containing the data, degenerate in x, y or "
                         "both, given as list / tuple / ndarray / Series, or defaulted) with element centres inside, on the upper edge and outside: "
                         "equality with the Lean reference; plus arbitrary float extents for range / independence / invariance; distinct by "
                         "(kind, element, total_bounds, p)")
    chk.assumptions += ["equality only where the scaling arithmetic is exact (extent a power of two, |coordinates| < 2^20)",
                        "the value of an inert (missing / empty) element is only required to lie in range"]
    return chk.finish(proof)


def replay(path):
    rep = json.load(open(path))
    arr = geo.make_array(rep["kind"], rep["elements"], "float64")
    tb = rep.get("total_bounds")
    arg = None if tb is None else {"list": list, "tuple": tuple, "ndarray": np.array, "series": pd.Series}.get(rep.get("argument_type", "list"), list)([float(v) for v in tb])
    try:
        print([int(x) for x in arr.hilbert_distance(total_bounds=arg, p=rep["p"])], "argument after:", arg)
    except Exception as e:  # noqa: BLE001
        print("raises", repr(e)); return 1
    return 0
