"""C04 — .cx selects exactly the intersecting rows, with or without a spatial index.

array / GeoSeries / GeoDataFrame `.cx[x0:x1, y0:y1]` with every pattern of present / omitted / reversed slice
ends, without an index and with indexes of several page sizes (built before or after a first query), against the
Lean model `Frames.getBounds` + `cxMask` / `cxIndexed` (the latter run with the implementation's own key
permutation and page size)."""
import json

import numpy as np
import pandas as pd

from . import common, geo
from .common import Check, drive, tok, untok

PROP = "C04"


def total_box(kind, els):
    vs = [v for e in els for v in geo.verts_of(kind, e)]
    if not vs:
        return None
    xs = [v[0] for v in vs]; ys = [v[1] for v in vs]
    return [min(xs), min(ys), max(xs), max(ys)]


def model_cx(kind, ends, total, ps, perm, els):
    line = "cx %s %s %s %s %s %s %d %s %s" % (kind, tok(ends[0]), tok(ends[1]), tok(ends[2]), tok(ends[3]), tok(total), ps, tok(perm), tok(els))
    out = drive([line])[0]
    if out == "bad-op":
        raise RuntimeError("driver rejected: " + line[:300])
    box, pos, mask = untok(out)
    return box, pos, mask


def containers(kind, arr, els, r):
    from spatialpandas import GeoDataFrame, GeoSeries
    n = len(els)
    labels = r.choice(([f"r{i}" for i in range(n)], [10 * (i % 3) for i in range(n)], list(range(n))[::-1]))
    out = [("array", arr, None)]
    out.append(("series", GeoSeries(arr.copy(), index=labels, name="g"), labels))
    df = GeoDataFrame({"a": list(range(n)), "geom": arr.copy(), "b": [f"s{i}" for i in range(n)]}, index=labels)
    out.append(("frame", df, labels))
    return out


def result_rows(cname, res, kind):
    """canonical rows of a result: (label, element[, other columns])"""
    if cname == "array":
        return [(None, json.dumps(e)) for e in geo.to_elements(res)]
    if cname == "series":
        return [(str(l), json.dumps(e)) for l, e in zip(res.index, geo.to_elements(res.array))]
    return [(str(l), json.dumps(e), int(a), str(b)) for l, e, a, b in
            zip(res.index, geo.to_elements(res["geom"].array), res["a"], res["b"])]


def expected_rows(cname, els, labels, pos):
    if cname == "array":
        return [(None, json.dumps(_f(els[i]))) for i in pos]
    if cname == "series":
        return [(str(labels[i]), json.dumps(_f(els[i]))) for i in pos]
    return [(str(labels[i]), json.dumps(_f(els[i])), i, f"s{i}") for i in pos]


def _f(e):
    if e is None:
        return None
    if isinstance(e, list):
        return [_f(x) for x in e]
    return float(e)


def slice_patterns(r, box, total):
    """slice-end patterns for the query box: all present, each subset omitted where the omitted end equals the
    total extent on that side is replaced by None, reversed ends"""
    x0, y0, x1, y1 = box
    pats = [((x0, x1, y0, y1), "present")]
    pats.append(((x1, x0, y0, y1), "reversed-x"))
    pats.append(((x0, x1, y1, y0), "reversed-y"))
    pats.append(((x1, x0, y1, y0), "reversed-xy"))
    for mask in range(1, 16):
        ends = [x0, x1, y0, y1]
        for k in range(4):
            if mask >> k & 1:
                ends[k] = None
        pats.append((tuple(ends), f"omitted-{mask:04b}"))
    return pats


def run_family(chk, kind, els, boxes, r, tier, tag, subtype="float64"):
    n = len(els)
    # half of the families live in a window of a larger array (non-zero buffer offset, elements before and behind the window):
    # the index is then built from the bounds of a sliced array
    pad = r.choice((0, 0, 1, 2, 3))
    if pad and any(e is not None and geo.verts_of(kind, e) for e in els):
        filler = [e for e in els if e is not None and geo.verts_of(kind, e)]
        front = [filler[(i * 7 + 1) % len(filler)] for i in range(pad)]
        back = [filler[(i * 5 + 2) % len(filler)] for i in range(r.choice((0, 1, 2)))]
        arr0 = geo.make_array(kind, front + els + back, subtype)[pad:pad + n]
    else:
        pad = 0
        arr0 = geo.make_array(kind, els, subtype)
    tot = total_box(kind, els)
    for bi, box in enumerate(boxes):
        pats = slice_patterns(r, box, tot)
        pat = pats[bi % len(pats)] if bi % 3 else pats[0]
        ends, pname = pat
        if tot is None and any(e is None for e in ends):
            continue            # omitted end of data without extent: NaN box, nothing is claimed
        total_arg = tot if tot is not None else [0, 0, 0, 0]
        idx_cfg = [(0, None)] + ([(r.choice((1, 2, 3, 512)), r.choice((1, 5, 10)))] if bi % 2 == 0 else [])
        for ps, p in idx_cfg:
            for cname, obj, labels in containers(kind, arr0, els, r)[: (3 if bi % 4 == 0 else 1 + bi % 3)]:
                rep = dict(api=f"{cname}.cx", kind=kind, elements=els, slice_ends=list(ends), pattern=pname, page_size=ps, p=p, window_offset=pad)
                perm = []
                try:
                    hist = "no-index"
                    if ps:
                        if bi % 5 == 0:
                            obj.cx[ends[0]:ends[1], ends[2]:ends[3]]   # query first, then build, then query
                            hist = "query-build-query"
                        else:
                            hist = "build-query"
                        obj.build_sindex(p=p, page_size=ps)
                        garr = obj if cname == "array" else (obj.array if cname == "series" else obj.geometry.array)
                        try:
                            k = [int(x) for x in garr._sindex._keys]
                            valid = [i for i, e in enumerate(els) if geo.verts_of(kind, e)]
                            perm = k if sorted(k) == valid else []
                        except Exception:  # noqa: BLE001
                            perm = []
                    res = obj.cx[ends[0]:ends[1], ends[2]:ends[3]]
                except Exception as e:  # noqa: BLE001
                    chk.violation(f"cx/{kind}/{cname}/raises-{common.err_kind(e)}/{'index' if ps else 'no-index'}",
                                  dict(rep, error=repr(e)[:300]), size=n)
                    continue
                mbox, pos, mask = model_cx(kind, ends, total_arg, ps, perm, els)
                chk.evaluated(n)
                dom = (mbox[0] != mbox[2] and mbox[1] != mbox[3]) or kind in ("point", "multipoint")
                if pos != mask and dom:
                    chk.tie_broken(f"model: cxIndexed != cxMask for {rep}")
                    return
                got = result_rows(cname, res, kind)
                exp = expected_rows(cname, els, labels, pos)
                if not dom:
                    if got != exp:
                        chk.drifted(f"{kind}: degenerate box, cx differs from model", dict(ends=list(ends)))
                    continue
                if got != exp:
                    miss = [x for x in exp if x not in got]
                    extra = [x for x in got if x not in exp]
                    what = "rows-missing" if miss and not extra else ("extra-rows" if extra and not miss else
                                                                       ("wrong-order" if sorted(map(str, got)) == sorted(map(str, exp)) else "wrong-rows"))
                    inert = any(json.loads(x[1]) is None or not geo.verts_of(kind, json.loads(x[1])) for x in extra)
                    chk.violation(f"cx/{kind}/{cname}/{what}{'/inert-row-selected' if inert else ''}/{'index' if ps else 'no-index'}/{pname.split('-')[0]}",
                                  dict(rep, history=hist, box=mbox, impl=got, expected=exp), size=n)
                if (type(res).__name__ != type(obj).__name__):
                    chk.violation(f"cx/{kind}/{cname}/result-type", dict(rep, got=type(res).__name__), size=n)
                chk.nontriv(hash((tag, kind, json.dumps(els), tuple(ends), ps, cname)))
                chk.count(f"{cname}:{'index' if ps else 'no-index'}"); chk.count("pattern:" + pname.split("-")[0]); chk.count("history:" + hist); chk.count("window-offset:" + ("0" if not pad else ">0"))
    chk.sample(dict(kind=kind, family=tag, elements=els[:4], example_slice=list(boxes[0])), cap=8)


def errors(chk, r):
    """slice step -> ValueError; zero-row parent"""
    arr = geo.make_array("line", [[0, 0, 1, 1]], "float64")
    try:
        arr.cx[0:1:2, 0:1]; got = "ok"
    except Exception as e:  # noqa: BLE001
        got = common.err_kind(e)
    if got != "ValueError":
        chk.violation("cx/slice-step-not-rejected", dict(api="cx", got=got))
    from spatialpandas import GeoSeries
    for kind in geo.KINDS:
        e = geo.make_array(kind, [], "float64")
        try:
            res = GeoSeries(e).cx[0:1, 0:1]
            if len(res) != 0:
                chk.violation(f"cx/{kind}/zero-rows-not-empty", dict(api="cx", kind=kind))
        except Exception as ex:  # noqa: BLE001
            chk.violation(f"cx/{kind}/series/raises-{common.err_kind(ex)}/zero-rows", dict(api="GeoSeries.cx", kind=kind, error=repr(ex)[:200]))
    chk.count("error-cases", 8)


def derived_after_build(chk, r, tier):
    """an index built on (or a query made on) the parent, then a derived object - reversed, copied by [:], strided, a window -
    queried: the rows are those of the derived object, whatever the parent has memoised"""
    for kind in ("point", "line", "polygon", "multipoint") if tier == "quick" else geo.KINDS:
        els = []
        while len(els) < 11:
            els += [e for e in geo.structured_elements(kind, r, 12, mag=20)]
        els = els[:11]
        n = len(els)
        fresh = geo.make_array(kind, els, "float64")
        derivs = [("[::-1]", lambda a: a[::-1], lambda o: o.iloc[::-1]), ("[:]", lambda a: a[:], lambda o: o.iloc[:]),
                  ("[::2]", lambda a: a[::2], lambda o: o.iloc[::2]), ("[1:][::-1]", lambda a: a[1:][::-1], lambda o: o.iloc[1:].iloc[::-1]),
                  ("[::-1][::-1]", lambda a: a[::-1][::-1], lambda o: o.iloc[::-1].iloc[::-1]), ("[3:9]", lambda a: a[3:9], lambda o: o.iloc[3:9])]
        for dname, fa, fo in derivs:
            for cname, obj, labels in containers(kind, fresh.copy(), els, r):
                rep = dict(api=f"{cname}.cx", kind=kind, elements=els, derivation=dname, page_size=2, p=6)
                try:
                    obj.build_sindex(p=6, page_size=2)
                    obj.cx[-3:3, -3:3]
                    child = fa(obj) if cname == "array" else fo(obj)
                    idx = eval("list(range(n))" + dname)
                    for box in ((-21, -21, 0, 0), (-5, -8, 12, 9), (2, -21, 21, 21)):
                        res = child.cx[box[0]:box[2], box[1]:box[3]]
                        m = [bool(x) for x in fresh.intersects_bounds(box)]
                        got = result_rows(cname, res, kind)
                        exp = expected_rows(cname, els, labels, [i for i in idx if m[i]])
                        chk.evaluated(len(idx))
                        if got != exp:
                            chk.violation(f"cx/{kind}/{cname}/derived-after-build-on-the-parent/{dname}", dict(rep, box=list(box), impl=got, expected=exp), size=n)
                            break
                except Exception as e:  # noqa: BLE001
                    chk.violation(f"cx/{kind}/{cname}/derived-after-build-raises-{common.err_kind(e)}", dict(rep, error=repr(e)[:300]), size=n)
    chk.count("derived-after-build")


def run_cases(chk, tier):
    from .c01 import families, random_family, random_boxes
    r = common.rng(PROP)
    fam = families(tier)
    errors(chk, r)
    derived_after_build(chk, r, tier)
    per = 30 if tier == "quick" else 250
    for kind in geo.KINDS:
        base, boxes = fam[kind]
        regular = [e for e in base if e is not None and geo.verts_of(kind, e)]
        for k in range(per):
            m = r.choice((1, 2, 3, 4, 4, 6))
            els = [r.choice(regular) for _ in range(m)]
            for _ in range(r.choice((0, 0, 1, 2))):
                els.insert(r.randrange(len(els) + 1), r.choice((None, [] if kind != "point" else None)))
            if r.random() < 0.3:
                els.append(els[0])                      # duplicate
            bxs = r.sample(boxes, 6)
            run_family(chk, kind, els, bxs, r, tier, "grid")
        # single-precision storage with box ends that single precision cannot represent (even coordinates around 2^24, odd ends):
        # with and without an index the ends are compared as given
        if kind in ("point", "multipoint", "line", "polygon"):
            B = 2 ** 24
            def mv(x, odd=False):
                if isinstance(x, list):
                    return [mv(y, odd) for y in x]
                return None if x is None else B + 2 * x + (1 if odd else 0)
            for k in range(6 if tier == "quick" else 40):
                els = [mv(r.choice(regular)) for _ in range(r.choice((2, 3, 5)))] + [None]
                bxs = [tuple(B + 2 * c + 1 for c in b) for b in r.sample(boxes, 5)]
                run_family(chk, kind, els, bxs, r, tier, "float32-precision", subtype="float32")
        for k in range(2 if tier == "quick" else 20):
            mag = r.choice((40, 1000))
            els = random_family(kind, r, 12, mag) + [None]
            run_family(chk, kind, els, random_boxes(kind, els, r, 6, mag), r, tier, "random")


def main(tier):
    chk = Check(PROP, tier)
    proof = common.proof_side(PROP, leanchecker=(tier == "thorough"))
    if common.import_impl(chk):
        try:
            run_cases(chk, tier)
        except Exception:  # noqa: BLE001
            import traceback
            chk.tie_broken("correspondence C04: implementation could not be driven: " + traceback.format_exc()[-1500:])
    chk.extra["rule"] = ("arrays of <= 7 elements drawn from the C01 grid families (+ missing / empty / duplicate rows) and seeded random shapes x boxes "
                         "x 20 slice-end patterns (present / reversed / every subset omitted) x {array, GeoSeries, GeoDataFrame with extra columns and "
                         "non-default index} x {no index, index with page size 1/2/3/512 built before or after a first query}; distinct by "
                         "(elements, slice ends, page size, container)")
    return chk.finish(proof)


def replay(path):
    rep = json.load(open(path))
    kind, els, ends = rep["kind"], rep["elements"], rep["slice_ends"]
    pad = rep.get("window_offset", 0)
    if pad:
        filler = [e for e in els if e is not None and geo.verts_of(kind, e)]
        front = [filler[(i * 7 + 1) % len(filler)] for i in range(pad)]
        arr = geo.make_array(kind, front + els + [filler[2 % len(filler)]], "float64")[pad:pad + len(els)]
    else:
        arr = geo.make_array(kind, els, "float64")
    if rep.get("page_size"):
        arr.build_sindex(p=rep.get("p", 10), page_size=rep["page_size"])
    res = arr.cx[ends[0]:ends[1], ends[2]:ends[3]]
    tot = total_box(kind, els) or [0, 0, 0, 0]
    mbox, pos, mask = model_cx(kind, ends, tot, 0, [], els)
    got = [json.dumps(e) for e in geo.to_elements(res)]
    exp = [json.dumps(_f(els[i])) for i in pos]
    print(json.dumps(dict(impl=got, expected=exp)))
    return 0 if got == exp else 1
