"""Translator half of the tie: regenerate lean/SpVerif/Generated/*.lean from /repo's
working tree (declarative fragments only).  Filled in by later sections."""
import os

from . import common


def regenerate():
    gdir = os.path.join(common.LEAN, "SpVerif", "Generated")
    os.makedirs(gdir, exist_ok=True)
    for name, fn in GENERATORS.items():
        text = fn()
        path = os.path.join(gdir, name)
        old = open(path).read() if os.path.exists(path) else None
        if old != text:
            with open(path, "w") as fh:
                fh.write(text)


GENERATORS = {}
