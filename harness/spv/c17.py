"""C17 — missing and empty geometries are inert.

Metamorphic: every operation on an array / frame and on the same array / frame with inert rows (missing, or without
any finite coordinate) inserted at chosen positions (first, last, a whole R-tree page, a whole Dask partition, every
position, all rows); the results restricted to the original rows must be identical, the inert rows must give the
inert answer.  Arbitrary (also inexact) float coordinates are allowed here."""
import json
import math

import numpy as np
import pandas as pd

from . import common, geo
from .common import Check

PROP = "C17"


INF, NAN_ = float("inf"), float("nan")
NONFINITE = {
    "point": [[INF, -INF], [NAN_, INF], [-INF, -INF]],
    "multipoint": [[INF, INF], [INF, -INF, NAN_, INF]],
    "line": [[INF, INF, -INF, NAN_], [-INF, -INF, -INF, -INF]],
    "ring": [[INF, INF, -INF, INF, INF, -INF, INF, INF]],
    "multiline": [[[INF, NAN_, INF, INF]], [[INF, INF, INF, INF], [-INF, -INF]]],
    "polygon": [[[INF, INF, -INF, INF, INF, -INF, INF, INF]]],
    "multipolygon": [[[[INF, INF, -INF, INF, INF, -INF, INF, INF]]]],
}


def inert_element(kind, r):
    """missing, empty, or present without any finite coordinate"""
    if r.random() < 0.25:
        return r.choice(NONFINITE[kind])
    if kind == "point":
        return r.choice((None, [float("nan"), float("nan")]))
    return r.choice((None, []))


def insert_plan(r, n, mode, page=2):
    """positions (in the new array) of the inert rows"""
    if mode == "first":
        return [0]
    if mode == "last":
        return [n]
    if mode == "page":
        a = r.randrange(0, n + 1)
        return list(range(a, a + page))
    if mode == "every":
        return list(range(0, 2 * n + 1, 2))
    if mode == "all":
        return None
    return sorted(r.sample(range(n + 3), 3))


def with_inert(kind, els, plan, r):
    if plan is None:
        return [inert_element(kind, r) for _ in els], []
    out, keep = [], []
    src = list(els)
    total = len(els) + len(plan)
    pset = set(p for p in plan if p < total)
    while len(pset) < len(plan):
        pset.add(total - 1 - len(pset))
    for pos in range(total):
        if pos in pset:
            out.append(inert_element(kind, r))
        else:
            keep.append(pos); out.append(src.pop(0))
    return out, keep


def f(x):
    x = float(x)
    return "nan" if math.isnan(x) else x


def array_ops(kind, arr, boxes, shape):
    q = {}
    n = len(arr)
    q["bounds"] = [[f(c) for c in row] for row in np.asarray(arr.bounds).reshape(n, 4).tolist()]
    q["total_bounds"] = [f(c) for c in arr.total_bounds]
    q["length"] = [f(x) for x in np.asarray(arr.length)]
    q["area"] = [f(x) for x in np.asarray(arr.area)]
    for b in boxes:
        q[f"ib{b}"] = [bool(x) for x in arr.intersects_bounds(b)]
    if kind == "point":
        q["intersects"] = [bool(x) for x in arr.intersects(shape)]
        # the form restricted to positions (all of them, back to front): same answers, also for the inert rows named in it
        q["intersects(inds)"] = [bool(x) for x in arr.intersects(shape, inds=np.arange(n)[::-1])][::-1] if n else []
    tb = q["total_bounds"]
    if "nan" not in tb:
        q["hilbert"] = [int(x) for x in arr.hilbert_distance(p=7)]
    return q


def check_array_level(chk, kind, els, plus, keep, boxes, shape, rep):
    a0 = geo.make_array(kind, els, "float64")
    a1 = geo.make_array(kind, plus, "float64")
    try:
        q0, q1 = array_ops(kind, a0, boxes, shape), array_ops(kind, a1, boxes, shape)
    except Exception as e:  # noqa: BLE001
        chk.violation(f"inert/{kind}/array-op-raises-{common.err_kind(e)}", dict(rep, error=repr(e)[:300])); return False
    inert_pos = [i for i in range(len(plus)) if i not in keep]
    for name in q1:
        if name == "total_bounds":
            if q1[name] != q0.get(name) and els:
                chk.violation(f"inert/{kind}/total_bounds-changed", dict(rep, without=q0[name], with_inert=q1[name])); return False
            continue
        if name == "hilbert" and name not in q0:
            continue
        if [q1[name][i] for i in keep] != q0[name]:
            chk.violation(f"inert/{kind}/{name.split('(')[0]}-of-other-rows-changed", dict(rep, quantity=name, without=q0[name],
                                                                                       with_inert=[q1[name][i] for i in keep])); return False
        for i in inert_pos:
            v = q1[name][i]
            el = plus[i]
            if name == "bounds" and v != ["nan"] * 4:
                chk.violation(f"inert/{kind}/bounds-of-inert-row-not-nan", dict(rep, row=i, element=el, impl=v)); return False
            if name in ("length", "area") and el is None and v != "nan":
                chk.violation(f"inert/{kind}/{name}-of-missing-not-nan", dict(rep, row=i, impl=v)); return False
            if (name.startswith("ib") or name.startswith("intersects")) and v is not False:
                chk.violation(f"inert/{kind}/{name.split('(')[0]}-true-for-inert-row", dict(rep, row=i, element=el, quantity=name)); return False
    chk.count("array-level")
    return True


def check_index_and_cx(chk, kind, els, plus, keep, boxes, r, rep):
    from spatialpandas import GeoSeries
    from spatialpandas.spatialindex import HilbertRtree
    a0 = geo.make_array(kind, els, "float64")
    a1 = geo.make_array(kind, plus, "float64")
    pos_of = {new: old for old, new in enumerate(keep)}
    for ps in (1, 2, 512):
        rt0 = HilbertRtree(np.asarray(a0.bounds), page_size=ps) if len(els) else None
        rt1 = HilbertRtree(np.asarray(a1.bounds), page_size=ps)
        for b in boxes:
            q = (b[0], b[1], b[2], b[3])
            i1 = sorted(int(x) for x in rt1.intersects(q))
            c1 = sorted(int(x) for x in rt1.covers_overlaps(q)[0])
            if any(i not in pos_of for i in i1 + c1):
                chk.violation(f"inert/{kind}/rtree-reports-inert-row", dict(rep, page_size=ps, query=list(b), intersects=i1, covers=c1)); return False
            if rt0 is not None:
                i0 = sorted(int(x) for x in rt0.intersects(q))
                c0 = sorted(int(x) for x in rt0.covers_overlaps(q)[0])
                if [pos_of[i] for i in i1] != i0 or [pos_of[i] for i in c1] != c0:
                    chk.violation(f"inert/{kind}/rtree-answer-for-other-rows-changed", dict(rep, page_size=ps, query=list(b), without=i0,
                                                                                           with_inert=[pos_of[i] for i in i1])); return False
        chk.count("rtree")
    s0 = GeoSeries(a0, index=[f"o{i}" for i in range(len(els))])
    labels1 = [f"o{pos_of[i]}" if i in pos_of else f"x{i}" for i in range(len(plus))]
    for ps in (0, 1, 2, 512):
        for b in boxes:
            if b[0] == b[2] or b[1] == b[3]:
                continue
            s1 = GeoSeries(a1.copy(), index=labels1)
            if ps:
                s1.build_sindex(page_size=ps)
            try:
                r1 = list(s1.cx[b[0]:b[2], b[1]:b[3]].index)
                r0 = list(s0.cx[b[0]:b[2], b[1]:b[3]].index) if len(els) else []
            except Exception as e:  # noqa: BLE001
                chk.violation(f"inert/{kind}/cx-raises-{common.err_kind(e)}", dict(rep, page_size=ps, box=list(b), error=repr(e)[:200])); return False
            if any(l.startswith("x") for l in r1):
                chk.violation(f"inert/{kind}/cx-selects-inert-row/{'index' if ps else 'no-index'}", dict(rep, page_size=ps, box=list(b), selected=r1)); return False
            if r1 != r0:
                chk.violation(f"inert/{kind}/cx-selection-of-other-rows-changed/{'index' if ps else 'no-index'}",
                              dict(rep, page_size=ps, box=list(b), without=r0, with_inert=r1)); return False
        chk.count("cx")
    return True


def check_sjoin(chk, kind, els, plus, keep, r, rep):
    from spatialpandas import GeoDataFrame, sjoin
    # inert rows on the right (shapes of `kind`) and on the left (points)
    pts = [[r.randint(-2, 8), r.randint(-2, 8)] for _ in range(6)]
    pplus, pkeep = with_inert("point", pts, insert_plan(r, len(pts), "some"), r)
    def frames(p, s):
        l = GeoDataFrame({"lv": list(range(len(p))), "geometry": geo.make_array("point", p, "float64")}, index=[f"l{i}" for i in range(len(p))])
        rr = GeoDataFrame({"rv": list(range(len(s))), "geometry": geo.make_array(kind, s, "float64")}, index=[f"r{i}" for i in range(len(s))])
        return l, rr
    for how in ("inner", "left", "right"):
        try:
            l0, r0 = frames(pts, els)
            l1, r1 = frames(pplus, plus)
            j0 = sjoin(l0, r0, how=how)
            j1 = sjoin(l1, r1, how=how)
        except Exception as e:  # noqa: BLE001
            chk.violation(f"inert/{kind}/sjoin-{how}-raises-{common.err_kind(e)}", dict(rep, how=how, error=repr(e)[:300])); return False
        lmap = {f"l{n}": f"l{o}" for o, n in enumerate(pkeep)}
        rmap = {f"r{n}": f"r{o}" for o, n in enumerate(keep)}
        lcol = "index_left" if how == "right" else None
        rcol = "index_right" if how != "right" else None
        def pairs(j, lm=None, rm=None):
            out = []
            for lab, (_, row) in zip(j.index, j.iterrows()):
                a = lab if how != "right" else row[lcol]
                b = row[rcol] if how != "right" else lab
                a = None if (isinstance(a, float) and math.isnan(a)) else a
                b = None if (isinstance(b, float) and math.isnan(b)) else b
                out.append((a, b))
            return out
        p0 = sorted(map(str, pairs(j0)))
        raw1 = pairs(j1)
        matched_inert = [(a, b) for a, b in raw1 if a is not None and b is not None and (a not in lmap or b not in rmap)]
        if matched_inert:
            chk.violation(f"inert/{kind}/sjoin-{how}-matches-inert-row", dict(rep, how=how, pairs=matched_inert[:5])); return False
        p1 = sorted(str((lmap.get(a, None) if a is not None else None, rmap.get(b, None) if b is not None else None))
                    for a, b in raw1 if (a is None or a in lmap) and (b is None or b in rmap))
        if p1 != p0:
            chk.violation(f"inert/{kind}/sjoin-{how}-pairs-of-other-rows-changed", dict(rep, how=how, without=p0[:10], with_inert=p1[:10])); return False
        chk.count("sjoin:" + how)
    return True


def check_dask(chk, kind, els, r, rep):
    """inert rows forming a whole Dask partition"""
    import dask.dataframe as dd
    from spatialpandas import GeoDataFrame
    n = len(els)
    if n < 2:
        return True
    k = 2
    block = [inert_element(kind, r) for _ in range(n)]          # one whole partition of inert rows
    where = r.choice(("first", "middle", "last"))
    parts = {"first": [block, els[: n // 2], els[n // 2:]], "middle": [els[: n // 2], block, els[n // 2:]],
             "last": [els[: n // 2], els[n // 2:], block]}[where]
    plus = [e for p in parts for e in p]
    divs = np.cumsum([0] + [len(p) for p in parts])
    df1 = GeoDataFrame({"v": list(range(len(plus))), "geometry": geo.make_array(kind, plus, "float64")})
    df0 = GeoDataFrame({"v": list(range(n)), "geometry": geo.make_array(kind, els, "float64")})
    rep = dict(rep, dask_partitions=[len(p) for p in parts], inert_partition=where)
    try:
        d1 = dd.from_pandas(df1, npartitions=1).repartition(divisions=[int(x) for x in divs[:-1]] + [int(divs[-1]) - 1])
        tb1 = [f(x) for x in d1.geometry.total_bounds]
        tb0 = [f(x) for x in df0.geometry.total_bounds]
        if tb1 != tb0:
            chk.violation(f"inert/{kind}/dask-total_bounds-changed", dict(rep, without=tb0, with_inert=tb1)); return False
        for b in [(-1e9, -1e9, 1e9, 1e9), (0, 0, 5, 5), (2, 2, 3, 9)]:
            sel1 = d1.cx[b[0]:b[2], b[1]:b[3]].compute()
            sel0 = df0.cx[b[0]:b[2], b[1]:b[3]]
            g1 = [json.dumps(e, default=str) for e in geo.to_elements(sel1["geometry"].array)] if len(sel1) else []
            g0 = [json.dumps(e, default=str) for e in geo.to_elements(sel0["geometry"].array)] if len(sel0) else []
            if any(json.loads(x) is None or not geo.verts_of(kind, json.loads(x)) for x in g1):
                chk.violation(f"inert/{kind}/dask-cx-selects-inert-row", dict(rep, box=list(b), selected=g1[:8])); return False
            if g1 != g0:
                chk.violation(f"inert/{kind}/dask-cx-selection-of-other-rows-changed", dict(rep, box=list(b), without=g0[:8], with_inert=g1[:8])); return False
        chk.count("dask:total_bounds+cx")
        # inert rows scattered inside ordinary partitions, every partition covered by the query
        sp, sk = with_inert(kind, els, insert_plan(r, n, "some"), r)
        dfs = GeoDataFrame({"v": list(range(len(sp))), "geometry": geo.make_array(kind, sp, "float64")})
        for npart in (1, 2, 3):
            ds = dd.from_pandas(dfs, npartitions=npart)
            for b in [(-1e9, -1e9, 1e9, 1e9), (0, 0, 5, 5)]:
                sel1 = ds.cx[b[0]:b[2], b[1]:b[3]].compute()
                sel0 = df0.cx[b[0]:b[2], b[1]:b[3]]
                g1 = [json.dumps(e, default=str) for e in geo.to_elements(sel1["geometry"].array)] if len(sel1) else []
                g0 = [json.dumps(e, default=str) for e in geo.to_elements(sel0["geometry"].array)] if len(sel0) else []
                if any(json.loads(x) is None or not geo.verts_of(kind, json.loads(x)) for x in g1):
                    chk.violation(f"inert/{kind}/dask-cx-selects-inert-row", dict(rep, scattered=sp, npartitions=npart, box=list(b), selected=g1[:8])); return False
                if g1 != g0:
                    chk.violation(f"inert/{kind}/dask-cx-selection-of-other-rows-changed", dict(rep, scattered=sp, box=list(b), without=g0[:8], with_inert=g1[:8])); return False
        chk.count("dask:cx-scattered")
        # Hilbert packing: the other rows keep their distances (the whole-frame bounds are unchanged)
        fin = [x for x in tb0 if x != "nan"]
        if len(fin) == 4 and n >= 3:
            p1 = d1.pack_partitions(npartitions=2, p=6).compute()
            h0 = df0.geometry.array.hilbert_distance(p=6)
            exp = sorted((int(h), int(v)) for h, v in zip(h0, df0["v"]))
            vmap = {}
            pos = 0
            for pi, part in enumerate(parts):
                for e in part:
                    vmap[pos] = None if part is block else len(vmap_values(vmap))
                    pos += 1
            got = sorted((int(h), vmap[int(v)]) for h, v in zip(p1.index, p1["v"]) if vmap[int(v)] is not None)
            if got != exp:
                chk.violation(f"inert/{kind}/pack_partitions-distances-of-other-rows-changed", dict(rep, without=exp[:8], with_inert=got[:8])); return False
            if len(p1) != len(plus):
                chk.violation(f"inert/{kind}/pack_partitions-drops-rows", dict(rep, rows_in=len(plus), rows_out=len(p1))); return False
            chk.count("dask:pack_partitions")
    except Exception as e:  # noqa: BLE001
        chk.violation(f"inert/{kind}/dask-raises-{common.err_kind(e)}", dict(rep, error=repr(e)[:300])); return False
    return True


def vmap_values(vmap):
    return [v for v in vmap.values() if v is not None]


def construction_with_inert(chk, r):
    """building an array from a python list of elements (coordinate type inferred): a missing element anywhere in the list does
    not change the other elements (mixed integer / fractional coordinates)"""
    from spatialpandas.geometry import LineArray, MultiPointArray, PointArray
    for cls, mk in ((PointArray, lambda x, y: [x, y]), (MultiPointArray, lambda x, y: [x, y, x + 1, y]), (LineArray, lambda x, y: [x, y, x + 2, y + 1])):
        for base in ([[1, 2], [0.5, 1.5]], [[0.25, 7], [3, 4], [5, 6.5]], [[1, 2], [3, 4]]):
            els = [mk(x, y) for x, y in base]
            try:
                ref = [None if e is None else [float(c) for c in e.flat_values] for e in cls(els)]
                for pos in range(len(els) + 1):
                    plus = els[:pos] + [None] + els[pos:]
                    got = [None if e is None else [float(c) for c in e.flat_values] for e in cls(plus)]
                    want = ref[:pos] + [None] + ref[pos:]
                    chk.evaluated()
                    if got != want:
                        chk.violation(f"inert/{cls.__name__}/constructing-with-a-missing-element-changes-other-elements",
                                      dict(api=cls.__name__, elements=els, with_inert=plus, got=got, expected=want)); break
            except Exception as e:  # noqa: BLE001
                chk.violation(f"inert/{cls.__name__}/construction-raises-{common.err_kind(e)}", dict(api=cls.__name__, elements=els, error=repr(e)[:200]))
    chk.count("construction-with-inert")


def run_cases(chk, tier):
    from .c01 import random_family
    r = common.rng(PROP)
    construction_with_inert(chk, r)
    rounds = 6 if tier == "quick" else 60
    boxes = [(0, 0, 5, 5), (-3, 2, 4, 9), (1, 1, 1, 1), (-1000, -1000, 1000, 1000)]
    # the origin lies strictly inside the shape (the slot of a missing point holds zero bytes)
    shape = geo.make_array("polygon", [[[-2, -3, 9, -3, 9, 9, -2, 9, -2, -3]]], "float64")[0]
    for kind in geo.KINDS:
        for k in range(rounds):
            els = random_family(kind, r, r.randint(1, 6), 8)
            if k % 2:
                # inexact float coordinates
                def jitter(x):
                    if isinstance(x, list):
                        return [jitter(y) for y in x]
                    return x + r.random() / 3
                if kind in ("polygon", "multipolygon", "ring"):
                    pass
                else:
                    els = [jitter(e) for e in els]
            mode = ("first", "last", "page", "every", "all", "some")[k % 6]
            plus, keep = with_inert(kind, els, insert_plan(r, len(els), mode), r)
            base = els if mode != "all" else []
            rep = dict(api="inertness", kind=kind, elements=els, with_inert=plus, mode=mode)
            chk.evaluated(len(plus))
            ok = check_array_level(chk, kind, base, plus, keep, boxes, shape, rep)
            ok = ok and check_index_and_cx(chk, kind, base, plus, keep, boxes, r, rep)
            if ok and k % 2 == 0 and mode != "all":
                ok = check_sjoin(chk, kind, els, plus, keep, r, rep)
            if ok and k % 3 == 0:
                check_dask(chk, kind, els, r, rep)
            chk.nontriv(hash((kind, json.dumps(plus, default=str), mode)))
            chk.count("mode:" + mode)
            if k == 0:
                chk.sample(dict(kind=kind, mode=mode, elements=els, with_inert=plus), cap=8)


def main(tier):
    chk = Check(PROP, tier)
    proof = common.proof_side(PROP, leanchecker=(tier == "thorough"))
    if common.import_impl(chk):
        try:
            run_cases(chk, tier)
        except Exception:  # noqa: BLE001
            import traceback
            chk.tie_broken("correspondence C17: implementation could not be driven: " + traceback.format_exc()[-1500:])
    chk.extra["rule"] = ("per kind: seeded arrays (integer and inexact float coordinates) and the same arrays with missing / empty rows inserted at "
                         "{first, last, a whole page, every position, all rows, random}; bounds, total_bounds, measures, box and shape predicates, "
                         "R-tree queries (page size 1/2/512), cx with and without index, sjoin (inert rows on both sides, 3 hows), Dask total_bounds / "
                         "cx / pack_partitions with a whole inert partition; distinct by (kind, array with inert rows, mode)")
    return chk.finish(proof)


def replay(path):
    import sys
    return common.generic_replay(sys.modules[__name__], path)
